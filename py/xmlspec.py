#!/usr/bin/env python3
"""Independent XML side of C05, written from docs/xml.md.

  xmlspec.py check-writer <in.jsonl> <out.jsonl>
      every input line {"id", "xml" (base64), "expected" (forest), "label", "switch_uniqueid_impl"}
      is parsed with expat (xml.etree), checked structurally, decoded per docs/xml.md and
      compared with the expected forest; output line {"id", "problems": [[key, what], ...]}

  xmlspec.py gen-reader <dbmap.json> <out.jsonl> <tier>
      emits spec-conformant documents for a menu of logical DOMs in every variation of the
      degrees of freedom the document leaves open, each with the forest it describes

  xmlspec.py self-check
      decodes the worked examples of docs/xml.md

Values are rendered exactly like harness/src/vals.rs::render (floats as raw bit patterns,
NaN as a class).
"""
import base64
import itertools
import json
import struct
import re
import sys
import xml.etree.ElementTree as ET


# ----------------------------------------------------------------------------
# rendering helpers (must match vals.rs::render with FloatMode::NanClass)

def f32s(x):
    if x != x:
        return "f:NaN"
    return "f:%08x" % struct.unpack(">I", struct.pack(">f", x))[0]


def f64s(x):
    if x != x:
        return "d:NaN"
    return "d:%016x" % struct.unpack(">Q", struct.pack(">d", x))[0]


def hexs(b):
    return b.hex()


class Problem(Exception):
    def __init__(self, key, what):
        super().__init__(what)
        self.key = key
        self.what = what


FLOAT_OK = set("0123456789+-.eE")


def parse_float(text, where, notes, single=True):
    """docs/xml.md 'float'/'double': XSD decimal notation, INF / +INF / -INF / NAN (upper case)."""
    t = text.strip()
    if t in ("INF", "+INF"):
        return float("inf")
    if t == "-INF":
        return float("-inf")
    if t == "NAN":
        return float("nan")
    low = t.lower()
    if low in ("inf", "+inf", "-inf", "nan", "infinity", "-infinity", "+infinity"):
        notes.append(("float-spelling|" + where, "non-finite float written as %r; docs/xml.md: encoders MUST use INF / -INF / NAN in upper case" % t))
        return float(low.replace("infinity", "inf"))
    if not t or any(c not in FLOAT_OK for c in t):
        raise Problem("float-syntax|" + where, "not a float: %r" % t)
    try:
        v = float(t)
    except ValueError:
        raise Problem("float-syntax|" + where, "not a float: %r" % t)
    if single:
        try:
            v = struct.unpack(">f", struct.pack(">f", v))[0]
        except OverflowError:
            v = float("inf") if v > 0 else float("-inf")
    return v


def parse_int(text, lo, hi, where):
    t = text.strip()
    if t.startswith("+"):
        raise Problem("int-plus|" + where, "positive numbers MUST NOT be prefixed with +: %r" % t)
    try:
        v = int(t)
    except ValueError:
        raise Problem("int-syntax|" + where, "not an integer: %r" % t)
    if not (lo <= v <= hi):
        raise Problem("int-range|" + where, "%d out of range" % v)
    return v


def text_of(e):
    return e.text or ""


def children(e):
    return list(e)


def child(e, name, where):
    found = [c for c in e if c.tag == name]
    if len(found) != 1:
        raise Problem("layout|" + where, "expected exactly one <%s> child, found %d (children: %s)" % (name, len(found), [c.tag for c in e]))
    return found[0]


def vec(e, names, where, notes):
    return [parse_float(text_of(child(e, n, where)), where, notes) for n in names]


def b64(text, where):
    # RFC 2045: line breaks and whitespace are ignored
    t = "".join(text.split())
    try:
        return base64.b64decode(t, validate=True)
    except Exception:
        raise Problem("base64|" + where, "not valid Base64: %r" % text[:40])


def cframe_str(e, where, notes):
    names = ["X", "Y", "Z", "R00", "R01", "R02", "R10", "R11", "R12", "R20", "R21", "R22"]
    got = [c.tag for c in e]
    if got != names:
        raise Problem("layout|" + where, "CoordinateFrame components %s, document order is %s" % (got, names))
    v = vec(e, names, where, notes)
    s = [f32s(x) for x in v]
    return "CFrame[(%s,%s,%s) (%s,%s,%s) (%s,%s,%s) (%s,%s,%s)]" % tuple(s)


def content_like(e, where, url_names):
    kids = children(e)
    if len(kids) != 1:
        raise Problem("layout|" + where, "expected exactly one child element, found %s" % [c.tag for c in kids])
    k = kids[0]
    if k.tag == "null":
        if (k.text or "").strip() or len(k):
            raise Problem("layout|" + where, "<null> MUST be empty")
        return None
    if k.tag in url_names:
        return text_of(k)
    raise Problem("layout|" + where, "child element <%s> is not one of %s" % (k.tag, ["null"] + list(url_names)))


def decode_value(e, ctx):
    """Returns (rendered string or ('ref', text) / ('sstr', hash)) for one property element."""
    tag = e.tag
    notes = ctx["notes"]
    w = tag
    if tag == "Axes":
        v = parse_int(text_of(child(e, "axes", w)), 0, 7, w)
        return "Axes:%d" % v
    if tag == "Faces":
        v = parse_int(text_of(child(e, "faces", w)), 0, 63, w)
        return "Faces:%d" % v
    if tag == "BinaryString":
        return "BinaryString:" + hexs(b64(text_of(e), w))
    if tag == "bool":
        t = text_of(e).strip()
        if t not in ("true", "false"):
            raise Problem("bool|" + w, "bool written as %r" % t)
        return "Bool:" + t
    if tag == "int":
        return "Int32:%d" % parse_int(text_of(e), -2**31, 2**31 - 1, w)
    if tag == "int64":
        return "Int64:%d" % parse_int(text_of(e), -2**63, 2**63 - 1, w)
    if tag == "token":
        return "Enum:%d" % parse_int(text_of(e), 0, 2**32 - 1, w)
    if tag == "float":
        return "Float32:" + f32s(parse_float(text_of(e), w, notes))
    if tag == "double":
        return "Float64:" + f64s(parse_float(text_of(e), w, notes, single=False))
    if tag in ("string", "ProtectedString"):
        return "String:" + hexs(text_of(e).encode("utf-8"))
    if tag == "Color3":
        r, g, b = vec(e, ["R", "G", "B"], w, notes)
        return "Color3(%s,%s,%s)" % (f32s(r), f32s(g), f32s(b))
    if tag == "Color3uint8":
        v = parse_int(text_of(e), 0, 2**32 - 1, w)
        if (v >> 24) != 0xFF:
            notes.append(("color3uint8-high-byte", "upper 8 bits SHOULD be FF, value %d" % v))
        return "Color3uint8(%d,%d,%d)" % ((v >> 16) & 255, (v >> 8) & 255, v & 255)
    if tag == "Vector2":
        x, y = vec(e, ["X", "Y"], w, notes)
        return "Vector2(%s,%s)" % (f32s(x), f32s(y))
    if tag == "Vector3":
        x, y, z = vec(e, ["X", "Y", "Z"], w, notes)
        return "Vector3(%s,%s,%s)" % (f32s(x), f32s(y), f32s(z))
    if tag == "Vector3int16":
        v = [parse_int(text_of(child(e, n, w)), -32768, 32767, w) for n in ("X", "Y", "Z")]
        return "Vector3int16(%d,%d,%d)" % tuple(v)
    if tag == "CoordinateFrame":
        return cframe_str(e, w, notes)
    if tag == "OptionalCoordinateFrame":
        kids = children(e)
        if not kids:
            return "OptionalCFrame:None"
        if len(kids) != 1 or kids[0].tag != "CFrame":
            raise Problem("layout|" + w, "Optional<CoordinateFrame> child must be one <CFrame>, found %s" % [k.tag for k in kids])
        return "OptionalCFrame:" + cframe_str(kids[0], w, notes)
    if tag == "UDim":
        s = parse_float(text_of(child(e, "S", w)), w, notes)
        o = parse_int(text_of(child(e, "O", w)), -2**31, 2**31 - 1, w)
        return "UDim(%s,%d)" % (f32s(s), o)
    if tag == "UDim2":
        xs = parse_float(text_of(child(e, "XS", w)), w, notes)
        xo = parse_int(text_of(child(e, "XO", w)), -2**31, 2**31 - 1, w)
        ys = parse_float(text_of(child(e, "YS", w)), w, notes)
        yo = parse_int(text_of(child(e, "YO", w)), -2**31, 2**31 - 1, w)
        return "UDim2(%s,%d,%s,%d)" % (f32s(xs), xo, f32s(ys), yo)
    if tag == "Ray":
        o = vec(child(e, "origin", w), ["X", "Y", "Z"], w, notes)
        d = vec(child(e, "direction", w), ["X", "Y", "Z"], w, notes)
        return "Ray[(%s,%s,%s) (%s,%s,%s)]" % tuple(f32s(x) for x in o + d)
    if tag == "Rect2D":
        a = vec(child(e, "min", w), ["X", "Y"], w, notes)
        b = vec(child(e, "max", w), ["X", "Y"], w, notes)
        return "Rect(%s,%s,%s,%s)" % tuple(f32s(x) for x in a + b)
    if tag == "NumberRange":
        parts = text_of(e).split()
        if len(parts) != 2:
            raise Problem("layout|" + w, "NumberRange needs two numbers: %r" % text_of(e))
        return "NumberRange(%s,%s)" % tuple(f32s(parse_float(p, w, notes)) for p in parts)
    if tag == "NumberSequence":
        parts = [parse_float(p, w, notes) for p in text_of(e).split()]
        if len(parts) % 3:
            raise Problem("layout|" + w, "NumberSequence needs 3 numbers per keypoint")
        kps = ["%s@%s~%s" % (f32s(parts[i]), f32s(parts[i + 1]), f32s(parts[i + 2])) for i in range(0, len(parts), 3)]
        return "NumberSequence[%s]" % ";".join(kps)
    if tag == "ColorSequence":
        parts = [parse_float(p, w, notes) for p in text_of(e).split()]
        if len(parts) % 5:
            raise Problem("layout|" + w, "ColorSequence needs 5 numbers per keypoint")
        kps = ["%s@(%s,%s,%s)" % (f32s(parts[i]), f32s(parts[i + 1]), f32s(parts[i + 2]), f32s(parts[i + 3])) for i in range(0, len(parts), 5)]
        return "ColorSequence[%s]" % ";".join(kps)
    if tag == "PhysicalProperties":
        cp = text_of(child(e, "CustomPhysics", w)).strip()
        if cp == "false":
            if len(children(e)) != 1:
                raise Problem("layout|" + w, "CustomPhysics=false must be the only child")
            return "PhysicalProperties:Default"
        if cp != "true":
            raise Problem("bool|" + w, "CustomPhysics written as %r" % cp)
        v = vec(e, ["Density", "Friction", "Elasticity", "FrictionWeight", "ElasticityWeight"], w, notes)
        return "PhysicalProperties(%s,%s,%s,%s,%s)" % tuple(f32s(x) for x in v)
    if tag == "Font":
        fam = content_like(child(e, "Family", w), w + ".Family", ("url",))
        weight = parse_int(text_of(child(e, "Weight", w)), 0, 65535, w)
        style = text_of(child(e, "Style", w)).strip()
        if style not in ("Normal", "Italic"):
            raise Problem("layout|" + w, "Font Style %r" % style)
        cached = [c for c in e if c.tag == "CachedFaceId"]
        cf = None
        if cached:
            cf = content_like(cached[0], w + ".CachedFaceId", ("url",))
        return "Font(%s,%d,%d,%s)" % (hexs((fam or "").encode()), weight, 1 if style == "Italic" else 0, "none" if not cf else "some:" + hexs(cf.encode()))
    if tag == "Content":
        kids = children(e)
        if len(kids) == 1 and kids[0].tag == "Ref":
            return ("content-ref", text_of(kids[0]).strip())
        u = content_like(e, w, ("uri",))
        return "Content:None" if u is None else "Content:Uri:" + hexs(u.encode())
    if tag == "ContentId":
        u = content_like(e, w, ("url",))
        return "ContentId:" + hexs((u or "").encode())
    if tag == "Ref":
        return ("ref", text_of(e).strip())
    if tag == "SharedString":
        return ("sstr", text_of(e).strip())
    if tag == "UniqueId":
        t = text_of(e).strip()
        if len(t) != 32:
            raise Problem("layout|" + w, "UniqueId must be 16 hex-encoded bytes: %r" % t)
        raw = bytes.fromhex(t)
        rnd = int.from_bytes(raw[0:8], "big")
        tm = int.from_bytes(raw[8:12], "big")
        idx = int.from_bytes(raw[12:16], "big")
        if not ctx.get("uniqueid_impl"):
            # document: "in the XML format [Random] is left-circular rotated by 1 bit"
            rnd = ((rnd >> 1) | ((rnd & 1) << 63)) & (2**64 - 1)
        if rnd >= 2**63:
            rnd -= 2**64
        return "UniqueId(%d,%d,%d)" % (idx, tm, rnd)
    return ("undocumented", tag)


def decode_document(xml_bytes, ctx):
    """-> (forest, problems). forest nodes: {class, name, props{name: rendered}, children}"""
    problems = []
    try:
        root = ET.fromstring(xml_bytes)
    except ET.ParseError as ex:
        return None, [("not-well-formed", "expat rejects the document: %s" % ex)]
    if root.tag != "roblox":
        return None, [("root", "root element is <%s>" % root.tag)]
    if root.attrib.get("version") != "4":
        problems.append(("version", "roblox version attribute is %r" % root.attrib.get("version")))
    sstr = {}
    nss = 0
    for c in root:
        if c.tag == "SharedStrings":
            nss += 1
            for d in c:
                if d.tag != "SharedString":
                    problems.append(("sharedstrings-child", "<%s> under SharedStrings" % d.tag))
                    continue
                key = d.attrib.get("md5")
                if key is None:
                    problems.append(("sharedstring-md5", "SharedString definition without md5"))
                    continue
                if key in sstr:
                    problems.append(("sharedstring-dup", "SharedString md5 %r defined twice" % key))
                try:
                    sstr[key] = b64(text_of(d), "SharedString")
                except Problem as p:
                    problems.append((p.key, p.what))
        elif c.tag not in ("Item", "Meta", "External"):
            problems.append(("roblox-child", "<%s> directly under roblox" % c.tag))
    if nss > 1:
        problems.append(("sharedstrings-count", "%d SharedStrings elements" % nss))
    referents = {}
    order = []

    def walk(item):
        ref = item.attrib.get("referent")
        cls = item.attrib.get("class")
        if cls is None:
            problems.append(("item-class", "Item without class"))
        if ref is None:
            problems.append(("item-referent", "Item without referent"))
        elif ref == "null":
            problems.append(("item-referent-null", "Item referent is 'null'"))
        elif ref in referents:
            problems.append(("item-referent-dup", "referent %r used twice" % ref))
        node = {"class": cls or "", "name": None, "props": {}, "children": [], "_ref": ref}
        referents.setdefault(ref, node)
        order.append(node)
        nprops = 0
        for c in item:
            if c.tag == "Properties":
                nprops += 1
                for p in c:
                    pname = p.attrib.get("name")
                    if pname is None:
                        problems.append(("prop-name", "<%s> without name attribute" % p.tag))
                        continue
                    try:
                        v = decode_value(p, ctx)
                    except Problem as pr:
                        problems.append((pr.key, "%s.%s: %s" % (cls, pname, pr.what)))
                        continue
                    if pname == "Name":
                        if isinstance(v, str) and v.startswith("String:"):
                            node["name"] = bytes.fromhex(v[7:]).decode("utf-8", "replace")
                        else:
                            problems.append(("name-type", "Name is not a string"))
                    else:
                        if pname in node["props"]:
                            problems.append(("prop-dup", "%s.%s written twice" % (cls, pname)))
                        node["props"][pname] = v
            elif c.tag == "Item":
                node["children"].append(walk(c))
            else:
                problems.append(("item-child", "<%s> under Item" % c.tag))
        if nprops != 1:
            problems.append(("properties-count", "%d Properties elements in an Item" % nprops))
        return node

    forest = [walk(c) for c in root if c.tag == "Item"]
    index = {id(n): i for i, n in enumerate(order)}
    # resolve references
    for n in order:
        for k, v in list(n["props"].items()):
            if isinstance(v, tuple):
                kind, val = v
                if kind in ("ref", "content-ref"):
                    prefix = "Ref:" if kind == "ref" else "Content:Object:"
                    if val == "null":
                        n["props"][k] = prefix + "null"
                    elif val in referents and val is not None:
                        n["props"][k] = prefix + "#%d" % index[id(referents[val])]
                    else:
                        n["props"][k] = prefix + "null"
                elif kind == "sstr":
                    if val in sstr:
                        n["props"][k] = "SharedString:" + hexs(sstr[val])
                    else:
                        problems.append(("sharedstring-undefined", "SharedString %r is used but not defined" % val))
                        n["props"][k] = "SharedString:?"
                else:
                    n["props"][k] = "undocumented:" + val

    def strip(n):
        return {"class": n["class"], "name": n["name"] if n["name"] is not None else n["class"], "props": n["props"], "children": [strip(c) for c in n["children"]]}

    for kind, what in ctx["notes"]:
        problems.append((kind, what))
    return [strip(n) for n in forest], problems


def diff_forest(exp, got, path=""):
    out = []
    if len(exp) != len(got):
        return [("shape", "%s: expected %d nodes, document has %d" % (path, len(exp), len(got)))]
    for i, (e, g) in enumerate(zip(exp, got)):
        p = "%s/%d" % (path, i)
        if e["class"] != g["class"]:
            out.append(("class", "%s: class %r vs %r" % (p, e["class"], g["class"])))
        if e["name"] != g["name"]:
            out.append(("name", "%s: name %r vs %r" % (p, e["name"], g["name"])))
        for k, v in e["props"].items():
            if k not in g["props"]:
                out.append(("missing-prop|" + v.split(":")[0].split("(")[0].split("[")[0], "%s: %s.%s expected %s, absent in the document (has %s)" % (p, e["class"], k, v[:80], sorted(g["props"]))))
            elif g["props"][k] != v:
                out.append(("value|" + v.split(":")[0].split("(")[0].split("[")[0], "%s: %s.%s expected %s, the document says %s" % (p, e["class"], k, v[:120], g["props"][k][:120])))
        for k in g["props"]:
            if k not in e["props"]:
                out.append(("extra-prop", "%s: %s.%s = %s is in the document but was not in the DOM" % (p, e["class"], k, g["props"][k][:80])))
        out.extend(diff_forest(e["children"], g["children"], p))
    return out


def check_writer(inp, outp):
    with open(inp) as f, open(outp, "w") as o:
        for line in f:
            rec = json.loads(line)
            ctx = {"notes": [], "uniqueid_impl": False}
            xml = base64.b64decode(rec["xml"])
            forest, problems = decode_document(xml, ctx)
            if forest is not None:
                d = diff_forest(rec["expected"], forest)
                if d:
                    # UniqueId: the document's rotation vs the implementation's plain hex
                    only_uid = all(k.startswith("value|UniqueId") for k, _ in d)
                    if only_uid:
                        ctx2 = {"notes": [], "uniqueid_impl": True}
                        forest2, _ = decode_document(xml, ctx2)
                        if forest2 is not None and not diff_forest(rec["expected"], forest2):
                            d = [("doc-vs-impl|UniqueId", "docs/xml.md says Random is rotated left by one bit in XML; the writer stores it unrotated: " + d[0][1])]
                    problems.extend(d)
            o.write(json.dumps({"id": rec["id"], "problems": problems[:6]}) + "\n")


# ----------------------------------------------------------------------------
# reader direction: generator

def esc(s):
    return s.replace("&", "&amp;").replace("<", "&lt;").replace(">", "&gt;").replace("\r", "&#13;")


def attr(s):
    return esc(s).replace('"', "&quot;")


def float_spellings():
    # (text, f32 value)
    return [("1", 1.0), ("1.0", 1.0), ("-0", -0.0), ("13e37", struct.unpack(">f", struct.pack(">f", 13e37))[0]), ("INF", float("inf")), ("+INF", float("inf")), ("-INF", float("-inf")), ("NAN", float("nan")), ("0.15625", 0.15625)]


def gen_reader(dbmap_path, outp, tier):
    dbmap = json.load(open(dbmap_path))  # {"Class.prop": "Canonical"}
    out = open(outp, "w")
    counter = [0]

    def emit(doc, expected, dim, mode):
        out.write(json.dumps({"id": counter[0], "xml": base64.b64encode(doc.encode("utf-8")).decode(), "expected": expected, "dim": dim, "mode": mode}) + "\n")
        counter[0] += 1

    def canon(cls, prop):
        return dbmap.get("%s.%s" % (cls, prop), prop)

    # a logical DOM: list of nodes (pre-order): class, name, parent, props [(wire name, tag, inner xml, rendered expected)]
    def prop_xml(tag, name, inner):
        return '<%s name="%s">%s</%s>' % (tag, attr(name), inner, tag)

    def v3(x, y, z):
        return "<X>%s</X><Y>%s</Y><Z>%s</Z>" % (x, y, z)

    doms = []
    # DOM 1: unknown class with one property of each documented type (read with ReadUnknown)
    p = [
        ("S", "string", esc("a <b> & c"), "String:" + hexs("a <b> & c".encode())),
        ("I", "int", "-5", "Int32:-5"),
        ("L", "int64", "1099511627776", "Int64:1099511627776"),
        ("B", "bool", "true", "Bool:true"),
        ("T", "token", "3", "Enum:3"),
        ("V", "Vector3", v3("1", "-2", "3.5"), "Vector3(%s,%s,%s)" % (f32s(1.0), f32s(-2.0), f32s(3.5))),
        ("U", "UDim2", "<XS>0.5</XS><XO>7</XO><YS>1</YS><YO>-3</YO>", "UDim2(%s,7,%s,-3)" % (f32s(0.5), f32s(1.0))),
        ("Bs", "BinaryString", base64.b64encode(bytes([0, 255, 195, 40])).decode(), "BinaryString:00ffc328"),
        ("C8", "Color3uint8", str(0xFF604020), "Color3uint8(96,64,32)"),
        ("Cn", "Content", "<null></null>", "Content:None"),
        ("Cu", "Content", "<uri>rbxassetid://1</uri>", "Content:Uri:" + hexs(b"rbxassetid://1")),
        ("Ci", "ContentId", "<url>rbxassetid://2</url>", "ContentId:" + hexs(b"rbxassetid://2")),
        ("Nr", "NumberRange", "0.5 2 ", "NumberRange(%s,%s)" % (f32s(0.5), f32s(2.0))),
        ("Ns", "NumberSequence", "0 6 3 1 4 2 ", "NumberSequence[%s@%s~%s;%s@%s~%s]" % tuple(f32s(x) for x in (0, 6, 3, 1, 4, 2))),
        ("Cs", "ColorSequence", "0 0.5 0.25 1 0 1 0 0 0 0 ", "ColorSequence[%s@(%s,%s,%s);%s@(%s,%s,%s)]" % tuple(f32s(x) for x in (0, 0.5, 0.25, 1, 1, 0, 0, 0))),
        ("Fa", "Faces", "<faces>42</faces>", "Faces:42"),
        ("Ax", "Axes", "<axes>5</axes>", "Axes:5"),
        ("Ra", "Ray", "<origin>%s</origin><direction>%s</direction>" % (v3(1, 2, 3), v3(-1, -2, -3)), "Ray[(%s,%s,%s) (%s,%s,%s)]" % tuple(f32s(x) for x in (1, 2, 3, -1, -2, -3))),
        ("Re", "Rect2D", "<min><X>1</X><Y>2</Y></min><max><X>3</X><Y>4</Y></max>", "Rect(%s,%s,%s,%s)" % tuple(f32s(x) for x in (1, 2, 3, 4))),
        ("Pd", "PhysicalProperties", "<CustomPhysics>false</CustomPhysics>", "PhysicalProperties:Default"),
        ("Pc", "PhysicalProperties", "<CustomPhysics>true</CustomPhysics><Density>1</Density><Friction>2</Friction><Elasticity>1</Elasticity><FrictionWeight>0.15625</FrictionWeight><ElasticityWeight>1.25</ElasticityWeight>", "PhysicalProperties(%s,%s,%s,%s,%s)" % tuple(f32s(x) for x in (1, 2, 1, 0.15625, 1.25))),
        ("Fo", "Font", "<Family><url>rbxasset://fonts/families/Arial.json</url></Family><Weight>700</Weight><Style>Italic</Style>", "Font(%s,700,1,none)" % hexs(b"rbxasset://fonts/families/Arial.json")),
        ("Cf", "CoordinateFrame", "".join("<%s>%s</%s>" % (n, v, n) for n, v in zip(["X", "Y", "Z", "R00", "R01", "R02", "R10", "R11", "R12", "R20", "R21", "R22"], [1, 2, 3, 0, -1, 0, 1, 0, 0, 0, 0, 1])), "CFrame[(%s,%s,%s) (%s,%s,%s) (%s,%s,%s) (%s,%s,%s)]" % tuple(f32s(x) for x in [1, 2, 3, 0, -1, 0, 1, 0, 0, 0, 0, 1])),
        ("On", "OptionalCoordinateFrame", "", "OptionalCFrame:None"),
        ("V16", "Vector3int16", v3(1337, 0, -1337), "Vector3int16(1337,0,-1337)"),
        ("V2", "Vector2", "<X>INF</X><Y>1337</Y>", "Vector2(%s,%s)" % (f32s(float("inf")), f32s(1337.0))),
        ("C3", "Color3", "<R>INF</R><G>1337</G><B>0.15625</B>", "Color3(%s,%s,%s)" % (f32s(float("inf")), f32s(1337.0), f32s(0.15625))),
        ("D", "double", "0.15625", "Float64:" + f64s(0.15625)),
        ("Ud", "UDim", "<S>0.15625</S><O>1337</O>", "UDim(%s,1337)" % f32s(0.15625)),
    ]
    doms.append(("all-types", "unknown", [{"class": "ZzUnknownThing", "name": "every type", "parent": None, "props": p}]))
    # DOM 2: known classes through serialized names (read with default options)
    doms.append(("known", "default", [
        {"class": "Folder", "name": " padded name ", "parent": None, "props": []},
        {"class": "Part", "name": "p", "parent": 0, "props": [
            ("Anchored", "bool", "true", "Bool:true"),
            ("size", "Vector3", v3(4, 1, 2), "Vector3(%s,%s,%s)" % (f32s(4.0), f32s(1.0), f32s(2.0))),
            ("Color3uint8", "Color3uint8", str(0xFF0A141E), "Color3uint8(10,20,30)"),
        ]},
        # nested under instances of *other* classes: a property name is resolved against the class
        # of the Item whose Properties element it is in, wherever that element stands
        {"class": "ModuleScript", "name": "m", "parent": 1, "props": [
            ("Source", "ProtectedString", "<![CDATA[print(\"<hi>\") -- ]] ok]]>", "String:" + hexs(b"print(\"<hi>\") -- ]] ok")),
        ]},
        # database-known Ref properties that are stored under another (serialized) name, one
        # backward and one forward reference
        {"class": "WeldConstraint", "name": "w", "parent": 2, "props": [
            ("Part0Internal", "Ref", "@1", "Ref:#1"),
            ("Part1Internal", "Ref", "@4", "Ref:#4"),
        ]},
        {"class": "Part", "name": "q", "parent": 0, "props": []},
    ]))
    # DOM 3: references and shared strings (unknown property names on known classes, ReadUnknown)
    doms.append(("refs", "unknown", [
        {"class": "Model", "name": "a", "parent": None, "props": [("Link", "Ref", "@2", "Ref:#2"), ("Sh", "SharedString", "$one", "SharedString:" + hexs(b"shared payload one"))]},
        {"class": "Folder", "name": "b", "parent": 0, "props": [("Link", "Ref", "@0", "Ref:#0"), ("Sh", "SharedString", "$one", "SharedString:" + hexs(b"shared payload one"))]},
        {"class": "Folder", "name": "c", "parent": None, "props": [("Link", "Ref", "null", "Ref:null"), ("Sh", "SharedString", "$two", "SharedString:" + hexs(b"second"))]},
    ]))

    sstr_defs = {"one": b"shared payload one", "two": b"second"}

    def render(dom, referents, prop_perm, indent, extras, sstr_first, wrap76):
        mode = dom[1]
        nodes = dom[2]
        nl = {"none": "", "newline": "\n", "tabs": "\n\t", "spaces": "\n  "}[indent]

        def item(i):
            n = nodes[i]
            props = list(n["props"])
            if prop_perm is not None and len(props) > 1:
                props = [props[j] for j in prop_perm(len(props))]
            inner = [prop_xml("string", "Name", esc(n["name"]))]
            for (name, tag, body, _exp) in props:
                if tag == "Ref":
                    body = "null" if body == "null" else esc(referents[int(body[1:])])
                if tag == "SharedString":
                    body = base64.b64encode(("md5-" + body[1:]).encode()).decode()
                if tag == "BinaryString" and wrap76:
                    # RFC 2045: lines of at most 76 characters; everything outside the base64 alphabet
                    # (line breaks, indentation) must be ignored by the decoder. A tuple (separator,
                    # width) wraps at another width: a line need not hold a multiple of 4 characters.
                    if isinstance(wrap76, tuple):
                        sep, width = wrap76
                    else:
                        sep, width = (wrap76 if isinstance(wrap76, str) else "\n"), 76
                    body = sep.join(body[k:k + width] for k in range(0, len(body), width))
                    if isinstance(wrap76, str) and len(wrap76) > 1:
                        body = wrap76 + body + wrap76
                if body.startswith("<") and not body.startswith("<![CDATA[") and tag not in ("string", "ProtectedString"):
                    # a composite value: Roblox itself writes every child element on a line of its
                    # own; comments may stand between them like between any elements
                    sep = None
                    if "composite-ws" in extras:
                        sep = "\n\t\t\t"
                    if "composite-comments" in extras:
                        sep = (sep or "") + "<!-- c -->" + (sep or " ")
                    if sep is not None:
                        body = sep + re.sub(r"(</[A-Za-z0-9]+>)(<[A-Za-z])", lambda m: m.group(1) + sep + m.group(2), body) + sep
                inner.append(prop_xml(tag, name, body))
            # Name can be anywhere among the properties
            if prop_perm is not None:
                inner = inner[1:] + inner[:1]
            kids = [item(j) for j in range(len(nodes)) if nodes[j]["parent"] == i]
            cm = "<!-- a comment, legal anywhere between elements -->" if "comments" in extras else ""
            props_xml = '<Properties>%s%s%s</Properties>' % (cm, (nl + " ").join([""] + inner) if nl else "".join(inner), nl)
            if "props-after-children" in extras:
                # the document lists what an Item may contain, not an order
                return '%s<Item class="%s" referent="%s">%s%s%s%s%s</Item>' % (nl, attr(n["class"]), attr(referents[i]), "".join(kids), nl, props_xml, cm, nl)
            return '%s<Item class="%s" referent="%s">%s%s%s%s%s%s</Item>' % (nl, attr(n["class"]), attr(referents[i]), cm, nl, props_xml, cm, "".join(kids), nl)

        body_items = "".join(item(i) for i in range(len(nodes)) if nodes[i]["parent"] is None)
        used = set()
        for n in nodes:
            for (_n, tag, body, _e) in n["props"]:
                if tag == "SharedString":
                    used.add(body[1:])
        ss = ""
        if used:
            defs = []
            for k in sorted(used):
                b = base64.b64encode(sstr_defs[k]).decode()
                if wrap76:
                    if isinstance(wrap76, tuple):
                        sep, width = wrap76
                    else:
                        sep, width = (wrap76 if isinstance(wrap76, str) else "\n"), 8
                    b = sep.join(b[j:j + width] for j in range(0, len(b), width))
                    if isinstance(wrap76, str) and len(wrap76) > 1:
                        b = wrap76 + b + wrap76
                defs.append('<SharedString md5="%s">%s</SharedString>' % (base64.b64encode(("md5-" + k).encode()).decode(), b))
            ss = nl + "<SharedStrings>" + "".join(defs) + "</SharedStrings>"
        meta = '<Meta name="ExplicitAutoJoints">true</Meta>'
        ext = "<External>null</External><External>nil</External>"
        head = (meta if "meta-first" in extras else "") + (ext if "external-first" in extras else "")
        tail = (meta if "meta-last" in extras else "") + (ext if "external-last" in extras else "")
        mid = (ss + body_items) if sstr_first else (body_items + ss)
        attrs = ' version="4"'
        if "studio-attrs" in extras:
            attrs = ' xmlns:xmime="http://www.w3.org/2005/05/xmlmime" xmlns:xsi="http://www.w3.org/2001/XMLSchema-instance" xsi:noNamespaceSchemaLocation="http://www.roblox.com/roblox.xsd" version="4"'
        doc = "<roblox%s>%s%s%s%s</roblox>" % (attrs, head, mid, tail, nl[:1])
        # (an XML declaration is only legal at the very start: white space goes after it)
        if "leading-ws" in extras:
            doc = "\n  " + doc + "\n\n"
        if "declaration" in extras:
            doc = '<?xml version="1.0" encoding="utf-8"?>\n' + doc
        return doc, mode

    def expected_of(dom):
        nodes = dom[2]
        order = []

        def build(i):
            n = nodes[i]
            order.append(i)
            node = {"class": n["class"], "name": n["name"], "props": {}, "children": []}
            for (name, tag, _b, exp) in n["props"]:
                node["props"][canon(n["class"], name)] = exp
            node["children"] = [build(j) for j in range(len(nodes)) if nodes[j]["parent"] == i]
            return node

        f = [build(i) for i in range(len(nodes)) if nodes[i]["parent"] is None]
        # Ref expectations use pre-order indices: "#k" refers to plan index k -> map to pre-order position
        pos = {plan_i: k for k, plan_i in enumerate(order)}

        def fix(n):
            for k, v in list(n["props"].items()):
                if v.startswith("Ref:#"):
                    n["props"][k] = "Ref:#%d" % pos[int(v[5:])]
            for c in n["children"]:
                fix(c)

        for n in f:
            fix(n)
        return f

    def ref_namings(n):
        return {
            "rbx-uuid": ["RBX%032X" % (0x1234567890ABCDEF1234567890ABCDEF + i) for i in range(n)],
            "integers": [str(i) for i in range(n)],
            "integers-reversed": [str(n - 1 - i) for i in range(n)],
            "tokens": ["ref with spaces & <odd> chars %d" % i for i in range(n)],
            # characters that Unicode calls white space but XML does not (a referent is any string)
            "unicode-space-padded": ["\u00a0%d\u3000" % i for i in range(n)],
        }

    def rotations(k):
        def mk(r):
            return lambda m: [(i + r) % m for i in range(m)]
        return [mk(r) for r in range(k)]

    for dom in doms:
        n = len(dom[2])
        exp = expected_of(dom)
        base_refs = ref_namings(n)["rbx-uuid"]
        # base
        doc, mode = render(dom, base_refs, None, "none", set(), False, False)
        emit(doc, exp, "base", mode)
        for name, refs in ref_namings(n).items():
            doc, mode = render(dom, refs, None, "newline", set(), False, False)
            emit(doc, exp, "referent-naming:" + name, mode)
        maxp = max(len(x["props"]) for x in dom[2])
        if maxp <= 4:
            for perm in itertools.permutations(range(maxp)):
                def pp(m, perm=perm):
                    idx = [x for x in perm if x < m]
                    return idx
                doc, mode = render(dom, base_refs, pp, "tabs", set(), False, False)
                emit(doc, exp, "property-order", mode)
        else:
            for rot in rotations(maxp if tier == "thorough" else min(maxp, 8)):
                doc, mode = render(dom, base_refs, rot, "tabs", set(), False, False)
                emit(doc, exp, "property-order", mode)
            doc, mode = render(dom, base_refs, lambda m: list(range(m))[::-1], "spaces", set(), False, False)
            emit(doc, exp, "property-order", mode)
        for indent in ("none", "newline", "tabs", "spaces"):
            doc, mode = render(dom, base_refs, None, indent, set(), False, False)
            emit(doc, exp, "indentation", mode)
        for ex in ("meta-first", "meta-last", "external-first", "external-last", "studio-attrs", "declaration", "leading-ws", "props-after-children", "comments", "composite-ws", "composite-comments"):
            doc, mode = render(dom, base_refs, None, "newline", {ex}, False, False)
            emit(doc, exp, "optional:" + ex, mode)
        doc, mode = render(dom, base_refs, None, "newline", {"meta-first", "external-first", "studio-attrs", "declaration"}, False, False)
        emit(doc, exp, "optional:all", mode)
        for sf in (False, True):
            for w in (False, True, "\r\n", "\n\t\t", "\n    ", " "):
                doc, mode = render(dom, base_refs, None, "newline", set(), sf, w)
                emit(doc, exp, "sharedstrings-position/base64-wrapping", mode)
            for width in (1, 2, 3, 5, 6, 7, 9, 10, 64, 75, 77):
                for sep in ("\n", "\r\n"):
                    doc, mode = render(dom, base_refs, None, "newline", set(), sf, (sep, width))
                    emit(doc, exp, "base64-line-width", mode)

    # two degrees of freedom at a time: the full product of the values of every pair of
    # dimensions, the others at their base value (thorough: every subset of the optional
    # elements x indentation x SharedStrings position)
    all_extras = ("meta-first", "meta-last", "external-first", "external-last", "studio-attrs", "declaration", "leading-ws", "props-after-children", "comments", "composite-ws", "composite-comments")
    for dom in doms:
        n = len(dom[2])
        exp = expected_of(dom)
        maxp = max(len(x["props"]) for x in dom[2])
        if maxp <= 4:
            perms = [None] + [(lambda m, perm=perm: [x for x in perm if x < m]) for perm in itertools.permutations(range(maxp))]
        else:
            perms = [None] + rotations(min(maxp, 6)) + [lambda m: list(range(m))[::-1]]
        dims = {
            "refs": list(ref_namings(n).values()),
            "perm": perms,
            "indent": ["newline", "none", "tabs", "spaces"],
            "extras": [set()] + [{e} for e in all_extras],
            "sstr": [False, True],
            "wrap": [False, True, "\r\n", "\n\t\t", "\n    ", " ", ("\n", 1), ("\r\n", 3), ("\n", 5), ("\n", 75)],
        }
        names = list(dims)
        for ai in range(len(names)):
            for bi in range(ai + 1, len(names)):
                a, b = names[ai], names[bi]
                for va in dims[a][1:]:
                    for vb in dims[b][1:]:
                        cur = {k: v[0] for k, v in dims.items()}
                        cur[a], cur[b] = va, vb
                        doc, mode = render(dom, cur["refs"], cur["perm"], cur["indent"], cur["extras"], cur["sstr"], cur["wrap"])
                        emit(doc, exp, "pair:%s*%s" % (a, b), mode)
        for e1 in range(len(all_extras)):
            for e2 in range(e1 + 1, len(all_extras)):
                doc, mode = render(dom, dims["refs"][0], None, "newline", {all_extras[e1], all_extras[e2]}, False, False)
                emit(doc, exp, "pair:extras*extras", mode)
        if tier == "thorough":
            for mask in range(1 << len(all_extras)):
                ex = {all_extras[i] for i in range(len(all_extras)) if mask >> i & 1}
                for indent in dims["indent"]:
                    for sf in (False, True):
                        doc, mode = render(dom, dims["refs"][mask % 4], perms[mask % len(perms)], indent, ex, sf, dims["wrap"][mask % len(dims["wrap"])])
                        emit(doc, exp, "product:extras-subsets", mode)

    # float spellings, one property at a time, in every float-carrying position
    for text, val in float_spellings():
        for tag, inner, rendered in [
            ("float", text, "Float32:" + f32s(val)),
            ("double", text, "Float64:" + f64s(float(text.strip().replace("INF", "inf").replace("NAN", "nan")))),
            ("Vector2", "<X>%s</X><Y>2</Y>" % text, "Vector2(%s,%s)" % (f32s(val), f32s(2.0))),
            ("NumberRange", "%s 2 " % text.strip(), "NumberRange(%s,%s)" % (f32s(val), f32s(2.0))),
            ("UDim", "<S>%s</S><O>1</O>" % text, "UDim(%s,1)" % f32s(val)),
        ]:
            doc = '<roblox version="4"><Item class="ZzUnknownThing" referent="RBX0"><Properties><string name="Name">f</string>%s</Properties></Item></roblox>' % prop_xml(tag, "V", inner)
            emit(doc, [{"class": "ZzUnknownThing", "name": "f", "props": {"V": rendered}, "children": []}], "float-spelling:" + text.strip(), "unknown")
    # integer spellings ("a number in the range ..."; only a leading '+' is ruled out): leading
    # zeros, a negative zero, in every integer-carrying position
    for text, val in [("0700", 700), ("007", 7), ("-007", -7), ("00", 0), ("-0", 0), ("000000000000000000000300", 300)]:
        rows = [
            ("int", text, "Int32:%d" % val),
            ("int64", text, "Int64:%d" % val),
            ("UDim", "<S>0.5</S><O>%s</O>" % text, "UDim(%s,%d)" % (f32s(0.5), val)),
            ("UDim2", "<XS>0.5</XS><XO>%s</XO><YS>1</YS><YO>%s</YO>" % (text, text), "UDim2(%s,%d,%s,%d)" % (f32s(0.5), val, f32s(1.0), val)),
            ("Vector3int16", "<X>%s</X><Y>0</Y><Z>%s</Z>" % (text, text), "Vector3int16(%d,0,%d)" % (val, val)),
        ]
        unsigned_ok = not text.startswith("-")  # (an unsigned field written with a minus sign is not claimed)
        if val >= 0 and unsigned_ok:
            rows.append(("token", text, "Enum:%d" % val))
        if val in (700, 300):
            rows.append(("Font", "<Family><url>rbxasset://fonts/families/Arial.json</url></Family><Weight>%s</Weight><Style>Normal</Style>" % text, "Font(%s,%d,0,none)" % (hexs(b"rbxasset://fonts/families/Arial.json"), val)))
        if 0 <= val < 64 and unsigned_ok:
            rows.append(("Faces", "<faces>%s</faces>" % text, "Faces:%d" % val))
        if 0 <= val < 8 and unsigned_ok:
            rows.append(("Axes", "<axes>%s</axes>" % text, "Axes:%d" % val))
        for tag, inner, rendered in rows:
            doc = '<roblox version="4"><Item class="ZzUnknownThing" referent="RBX0"><Properties><string name="Name">i</string>%s</Properties></Item></roblox>' % prop_xml(tag, "V", inner)
            emit(doc, [{"class": "ZzUnknownThing", "name": "i", "props": {"V": rendered}, "children": []}], "int-spelling:" + text[:6], "unknown")
    # strings: CDATA vs escaped, whitespace preservation, ProtectedString / string
    for label, s in [("plain", "Hello"), ("lead-trail-ws", "  padded  "), ("markup", "<&>\"'"), ("newlines", "a\nb\tc"), ("cdata-end", "x]]>y"), ("ws-only", "   "), ("empty", "")]:
        for form in ("escaped", "cdata"):
            if form == "cdata":
                body = "<![CDATA[" + s.replace("]]>", "]]]]><![CDATA[>") + "]]>"
            else:
                body = esc(s)
            if form == "escaped" and label == "ws-only":
                # "Any trailing or leading whitespace in XML files are ignored by Roblox": what
                # whitespace-only character data means is not pinned down by the document
                continue
            for tag in ("string", "ProtectedString"):
                if tag == "string" and form == "escaped" and label == "lead-trail-ws":
                    continue  # only ProtectedString is required to keep outer whitespace of plain character data
                name_s, name_body = (s, body) if (form == "cdata" or label != "lead-trail-ws") else ("n", "n")
                doc = '<roblox version="4"><Item class="ZzUnknownThing" referent="RBX0"><Properties><string name="Name">%s</string>%s</Properties></Item></roblox>' % (name_body, prop_xml(tag, "V", body))
                emit(doc, [{"class": "ZzUnknownThing", "name": name_s, "props": {"V": "String:" + hexs(s.encode())}, "children": []}], "string-form:%s:%s" % (form, label), "unknown")
    # XML syntax freedoms inside one text value: the character data of an element is the
    # concatenation of its text, CDATA sections and character references; comments between the
    # pieces are not part of it.  left / middle / right pieces x their forms x a comment before and
    # after the middle piece, in string, ProtectedString and a ContentId's url.
    def piece(text, form):
        if form == "cdata":
            return "<![CDATA[" + text + "]]>"
        if form == "charref":
            return "".join("&#x%x;" % ord(ch) for ch in text)
        return esc(text)
    for left, lform in [("Hello,", "text"), ("x", "cdata")]:
        for right, rform in [("world", "text"), ("y", "cdata")]:
            for mid in [" ", "\n", "  \t", "m", ""]:
                for mform in ("text", "cdata", "charref"):
                    if mid == "" and mform != "text":
                        continue
                    for sep1 in ("", "<!--c-->", "<!-- a --><!-- b -->"):
                        for sep2 in ("", "<!--c-->"):
                            body = piece(left, lform) + sep1 + piece(mid, mform) + sep2 + piece(right, rform)
                            want = left + mid + right
                            for tag, inner in [("string", body), ("ProtectedString", body), ("ContentId", "<url>" + body + "</url>")]:
                                rendered = ("ContentId:" if tag == "ContentId" else "String:") + hexs(want.encode())
                                doc = '<roblox version="4"><Item class="ZzUnknownThing" referent="RBX0"><Properties><string name="Name">t</string>%s</Properties></Item></roblox>' % prop_xml(tag, "V", inner)
                                emit(doc, [{"class": "ZzUnknownThing", "name": "t", "props": {"V": rendered}, "children": []}], "text-syntax:%s:%s%s" % (mform, "comments" if (sep1 or sep2) else "adjacent", ":ws" if mid.strip() == "" and mid else ""), "unknown")
    # Color3uint8 without the FF high byte; ContentId null; Font with CachedFaceId
    for tag, inner, rendered, dim in [
        ("Color3uint8", str(0x00604020), "Color3uint8(96,64,32)", "color3uint8-without-ff"),
        ("ContentId", "<null></null>", "ContentId:", "contentid-null"),
        ("Font", "<Family><url>rbxasset://fonts/families/Arial.json</url></Family><Weight>400</Weight><Style>Normal</Style><CachedFaceId><url>rbxasset://fonts/arial.ttf</url></CachedFaceId>", "Font(%s,400,0,some:%s)" % (hexs(b"rbxasset://fonts/families/Arial.json"), hexs(b"rbxasset://fonts/arial.ttf")), "font-cached-face"),
        ("OptionalCoordinateFrame", "<CFrame>" + "".join("<%s>%s</%s>" % (n, v, n) for n, v in zip(["X", "Y", "Z", "R00", "R01", "R02", "R10", "R11", "R12", "R20", "R21", "R22"], [0, 0, 0, 1, 0, 0, 0, 1, 0, 0, 0, 1])) + "</CFrame>", "OptionalCFrame:CFrame[(%s,%s,%s) (%s,%s,%s) (%s,%s,%s) (%s,%s,%s)]" % tuple(f32s(x) for x in [0, 0, 0, 1, 0, 0, 0, 1, 0, 0, 0, 1]), "optional-some"),
        ("UniqueId", "0000000000000012" + "00000008" + "00000007", "UniqueId(7,8,9)", "uniqueid-document-rotation"),
    ]:
        doc = '<roblox version="4"><Item class="ZzUnknownThing" referent="RBX0"><Properties><string name="Name">v</string>%s</Properties></Item></roblox>' % prop_xml(tag, "V", inner)
        emit(doc, [{"class": "ZzUnknownThing", "name": "v", "props": {"V": rendered}, "children": []}], dim, "unknown")
    out.close()
    print("generated", counter[0])


def self_check():
    ok = 0
    examples = [
        ('<Axes name="A"><axes>1</axes></Axes>', "Axes:1"),
        ('<BinaryString name="A">Um9qbyBpcyBjb29sIQ==</BinaryString>', "BinaryString:" + hexs(b"Rojo is cool!")),
        ('<bool name="A">false</bool>', "Bool:false"),
        ('<int name="A">194</int>', "Int32:194"),
        ('<Color3 name="A"><R>INF</R><G>1337</G><B>0.15625</B></Color3>', "Color3(%s,%s,%s)" % (f32s(float("inf")), f32s(1337.0), f32s(0.15625))),
        ('<Color3uint8 name="A">4284497952</Color3uint8>', "Color3uint8(96,64,32)"),
        ('<ContentId name="A"><url>rbxasset://textures/face.png</url></ContentId>', "ContentId:" + hexs(b"rbxasset://textures/face.png")),
        ('<ContentId name="A"><null></null></ContentId>', "ContentId:"),
        ('<double name="A">0.15625</double>', "Float64:" + f64s(0.15625)),
        ('<Faces name="A"><faces>42</faces></Faces>', "Faces:42"),
        ('<float name="A">0.15625</float>', "Float32:" + f32s(0.15625)),
        ('<Font name="A"><Family><url>rbxasset://fonts/families/Arial.json</url></Family><Weight>700</Weight><Style>Italic</Style></Font>', "Font(%s,700,1,none)" % hexs(b"rbxasset://fonts/families/Arial.json")),
        ('<int64 name="A">-559038737</int64>', "Int64:-559038737"),
        ('<NumberRange name="A">0.15625 1337 </NumberRange>', "NumberRange(%s,%s)" % (f32s(0.15625), f32s(1337.0))),
        ('<NumberSequence name="A">0 6 3 1 4 2 </NumberSequence>', "NumberSequence[%s@%s~%s;%s@%s~%s]" % tuple(f32s(x) for x in (0, 6, 3, 1, 4, 2))),
        ('<ProtectedString name="A"><![CDATA[print("Hello world!")]]></ProtectedString>', "String:" + hexs(b'print("Hello world!")')),
        ('<string name="A">Hello, world!</string>', "String:" + hexs(b"Hello, world!")),
        ('<token name="A">3</token>', "Enum:3"),
        ('<UDim name="A"><S>0.15625</S><O>1337</O></UDim>', "UDim(%s,1337)" % f32s(0.15625)),
        ('<UDim2 name="A"><XS>0.15625</XS><XO>1337</XO><YS>-123</YS><YO>456</YO></UDim2>', "UDim2(%s,1337,%s,456)" % (f32s(0.15625), f32s(-123.0))),
        ('<Vector2 name="A"><X>INF</X><Y>1337</Y></Vector2>', "Vector2(%s,%s)" % (f32s(float("inf")), f32s(1337.0))),
        ('<Vector3 name="A"><X>-INF</X><Y>0.15625</Y><Z>-1337</Z></Vector3>', "Vector3(%s,%s,%s)" % (f32s(float("-inf")), f32s(0.15625), f32s(-1337.0))),
        ('<Vector3int16 name="A"><X>1337</X><Y>0</Y><Z>-1337</Z></Vector3int16>', "Vector3int16(1337,0,-1337)"),
        ('<Rect2D name="A"><min><X>1</X><Y>2</Y></min><max><X>3</X><Y>4</Y></max></Rect2D>', "Rect(%s,%s,%s,%s)" % tuple(f32s(x) for x in (1, 2, 3, 4))),
        ('<Ray name="A"><origin><X>1</X><Y>2</Y><Z>3</Z></origin><direction><X>-1</X><Y>-2</Y><Z>-3</Z></direction></Ray>', "Ray[(%s,%s,%s) (%s,%s,%s)]" % tuple(f32s(x) for x in (1, 2, 3, -1, -2, -3))),
        ('<PhysicalProperties name="A"><CustomPhysics>true</CustomPhysics><Density>1</Density><Friction>2</Friction><Elasticity>1</Elasticity><FrictionWeight>0.15625</FrictionWeight><ElasticityWeight>1.25</ElasticityWeight></PhysicalProperties>', "PhysicalProperties(%s,%s,%s,%s,%s)" % tuple(f32s(x) for x in (1, 2, 1, 0.15625, 1.25))),
    ]
    for xml, want in examples:
        e = ET.fromstring(xml)
        got = decode_value(e, {"notes": []})
        if got != want:
            print("SELF-CHECK FAILED", xml, got, want)
            sys.exit(2)
        ok += 1
    print("self-check ok", ok)


if __name__ == "__main__":
    if len(sys.argv) >= 4 and sys.argv[1] == "check-writer":
        check_writer(sys.argv[2], sys.argv[3])
    elif len(sys.argv) >= 5 and sys.argv[1] == "gen-reader":
        gen_reader(sys.argv[2], sys.argv[3], sys.argv[4])
    elif len(sys.argv) >= 2 and sys.argv[1] == "self-check":
        self_check()
    else:
        print(__doc__)
        sys.exit(2)
