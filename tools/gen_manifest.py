#!/usr/bin/env python3
"""Regenerates /verif/MANIFEST.json from the table below (kept in one place so the
manifest stays valid while checks are added)."""
import json, os, subprocess
ROOT = os.path.dirname(os.path.dirname(os.path.abspath(__file__)))

BASELINE_OFF = "cd /repo && cargo test --workspace --no-fail-fast --offline"

# id -> (engine, category, technique, level text, level note, design ref)
CHECKS = {
 "C01": ("codec", "model_checking",
  "bounded-exhaustive enumeration of DOM plans (value alphabets x column positions x property knowledge; forests x class assignments x root selections x Ref/SharedString/Content placements) through the real rbx_binary writer and reader under all three compression modes, against the plan's expected canonical form",
  "Every case of the stated finite space is executed on the real codec and compared bit-exactly (floats as raw bits) with an expectation computed from the plan with only the documented normalisations. Round-trip fidelity is a universally quantified statement over inputs; the small-scope space is enumerated completely, nothing is sampled.",
  "Finite boundary alphabets (DESIGN.md 3.3), forests <= 3 (quick) / 4 (thorough) nodes, columns <= 2/3 instances; expected canonical names from our own walk of the reflection database (harness/src/specdb.rs).",
  "5/C01"),
 "C02": ("codec", "model_checking",
  "bounded-exhaustive enumeration of DOM plans through the real rbx_xml writer and reader under every option pairing that keeps a property, against the plan's expected canonical form",
  "Same enumeration as C01 over the XML type set plus the text alphabet in names and values and chains to depth 300; default/default, WriteUnknown/ReadUnknown and NoReflection/NoReflection pairings; floats bit-exact through their decimal text, NaN as a class.",
  "Finite boundary alphabets; strings XML-1.0 legal; sequences >= 2 keypoints; xml-rs trusted for XML well-formedness (checked independently in C05).",
  "5/C02"),
 "C03": ("codec", "model_checking",
  "bounded-exhaustive enumeration of DOM plans through the real rbx_binary writer, every produced file decoded by an independent decoder written from docs/binary.md (bound to the document's worked examples) plus a structural monitor",
  "Every file of C01's enumeration under each compression mode is decoded by harness/src/specbin.rs (own LZ4 block decoder, zstd streaming API, no rbx_binary code) and compared at wire level with the plan; the monitor checks header counts, INST/PROP/PRNT/SSTR/END structure, chunk lengths and reserved fields.",
  "Document-vs-implementation divergences (UniqueId layout, Faces bit order, Content.SourceTypes, undocumented type 0x21) are decided with the document's reading and listed as known findings; everything else in those files is still checked.",
  "5/C03"),
 "C04": ("codec", "model_checking",
  "bounded-exhaustive enumeration of spec-conformant encodings produced by an independent encoder written from docs/binary.md (every degree of freedom swept around a base encoding, for every logical DOM of a reduced topology sweep), each read by the real rbx_binary reader and compared with the logical DOM",
  "For every logical DOM the independent encoder varies compression per chunk (5 encodings incl. own LZ4-literal and zstd-raw-block writers), chunk order, class ids, referent numbering, PRNT order, META, unknown chunks, column order, service format, skipped PROP chunks and narrower numeric wire types; each file must pass the independent decoder (conformance of the spec codec's two halves) and then decode with rbx_binary to the DOM it describes.",
  "One degree of freedom at a time around a base encoding (thorough: full product on <=2-instance DOMs); forests <= 3/4 nodes; document-vs-implementation rows are known findings.",
  "5/C04"),
 "C05": ("codec", "model_checking",
  "bounded-exhaustive enumeration in both directions: every document the real rbx_xml writer emits for C02's plan enumeration is parsed by an independent XML parser (expat) and a value decoder written from docs/xml.md; every document an independent generator written from docs/xml.md emits for three logical DOMs over the product of its degrees of freedom is read by the real rbx_xml reader and compared with the logical DOM",
  "Writer direction: structure (roblox/version, Item class + unique non-null referent, exactly one Properties, SharedStrings defining every used hash) and values (element names and child layouts per type, floats bit-exact, line ends as a conforming parser sees them) of every emitted document. Reader direction: referent naming schemes, property orders (all permutations on small nodes), indentation, Meta/External placement, XML declaration, Studio attributes, SharedStrings before/after Items, wrapped base64, every float spelling in every float position, string forms (escaped/CDATA x string/ProtectedString), forward references.",
  "py/xmlspec.py is bound to docs/xml.md by its worked examples (self-check at every run); a SHOULD of the document (Color3uint8 high byte) is counted, not judged; types the document does not describe are outside the value check.",
  "5/C05"),
 "C06": ("dbwalk", "model_checking",
  "complete enumeration of the database's serializable property names (canonical and alias spellings, every class) x alphabet values through both real codecs, comparing the two read-backs and the conversion closure",
  "Every class x every reachable serializable non-migrating property name x values of the declared type as a single-property instance, one all-properties instance per class and Ref topologies are written/read by rbx_binary and rbx_xml; the read-backs must agree and converting either to the other format and back must lose nothing.",
  "Compared modulo the binary format's documented rotation snap (applied to both sides) and with NaN as a class; restricted to explicitly set properties.",
  "5/C06"),
 "C07": ("codec", "model_checking",
  "bounded-exhaustive enumeration of DOM plans x every construction variant (property insertion permutations, construction sequences, Ref assignments, rebuilt hash maps, independent worker processes), byte-comparing all serializer outputs; plus the re-save fixed point",
  "Every plan of the topology and property-menu sweeps is built in every variant and serialized to binary (3 compressions) and XML; all outputs of one plan must be byte-identical within a process and across 16 independently started processes (fresh process-wide hash seeds); save(load(save(load(s)))) must equal save(load(s)).",
  "Iteration-order nondeterminism is provoked through insertion order, capacity history, Ref values, per-map ahash seeds and process-level seeds; coverage of hash layouts is what those variants produce, not all layouts.",
  "5/C07"),
 "C08": ("codec", "model_checking",
  "bounded-exhaustive enumeration of ordered tuples of same-class instances over the full product of per-instance property-spelling configurations, through the real binary writer and reader",
  "Every ordered tuple of up to 3 (thorough: 4 for small menus) instances of Part, TextLabel, ScreenGui and an unknown class, each with every combination of absent/each spelling per logical property; checks 'serializes whenever each does alone' (hence order independence) and 'own value or class default, never a sibling's' on the read-back.",
  "Menus of 3-4 logical properties per class; defaults from harness/src/specdb.rs.",
  "5/C08"),
 "C09": ("domx", "model_checking",
  "explicit-state BFS to fixed point over canonical states of two real WeakDoms (all 7 operations, every valid argument), invariants on every transition",
  "Every reachable state of a pair of WeakDoms with at most N live instances (N=10 quick, 12 thorough) is visited; on every transition the real WeakDom objects (history-replayed and freshly built) are checked for forest well-formedness through the public API and on the consumed backing map. Well-formedness is an invariant of a finite-state system once the node count is bounded, so exhaustive reachability is the natural level.",
  "Bounded by the live-instance cap (two DOMs); Ref values abstracted to positions; transfer_within into the moved subtree excluded as outside 'valid arguments'.",
  "5/C09"),
 "C10": ("domx", "model_checking",
  "explicit-state BFS with lock-step reference model (plain ordered trees) compared after every transition on the real WeakDom",
  "Same exhaustive exploration as C09; after every transition the real DOMs are diffed against a reference model that executes the documented meaning of the same call (returned referent, append position, child order, conservation across DOMs, untouched bystanders).",
  "Reference model written from the rustdoc of WeakDom; node cap as in C09.",
  "5/C10"),
 "C11": ("domx", "model_checking",
  "explicit-state BFS (structure cap 10; Ref-carrying cap 5/6) plus exhaustive topology x Ref-placement product for every clone call, against the three-way Ref rule of the reference model",
  "All clone transitions of the bounded state graphs and the complete product of forests (<=5/6 live instances) x every assignment of Ref properties over {absent,null,ghost,every instance of either DOM} x every clone_within/clone_into_external/clone_multiple_into_external call are executed on the real code and compared with the model (fresh referents, isomorphic copy, source untouched, three-way Ref rule, both Ref properties of a node).",
  "Bounded forests; one Ref target per node (mirrored in a second property); for overlapping clone_multiple arguments either copy is accepted as 'the corresponding copy'.",
  "5/C11"),
 "C12": ("domx+sched", "model_checking",
  "explicit-state BFS over histories with colliding UniqueId tokens and hidden-state probes after every transition; bounded-exhaustive enumeration of files with equal ids (independent binary encoder, XML text) through the real readers followed by the same probes; exhaustive interleavings of concurrent UniqueId::now under a deterministic scheduler",
  "Every reachable state (cap 6 quick / 7 thorough) of two DOMs whose instances carry UniqueId tokens from {none,u1,u2,nil}; after every transition uniqueness, preservation-unless-collision and freshness are checked and the private bookkeeping set is probed with every token. Readers: every forest of <=3 (4) instances x every token assignment, encoded by the independent binary encoder (two numberings, one class per node or one shared column) and as XML text (Properties before / after the children), decoded by rbx_binary / rbx_xml, then uniqueness, preservation, probes and a destroy-then-reinsert step. UniqueId::now: 2-3 threads x 1-3 calls, counter start 0 and near u32::MAX, clock and RNG pinned equal.",
  "Token alphabet of 3 ids + generated ids; builders with pairwise distinct tokens; overlapping clone_multiple excluded in this mode (entry order would matter).",
  "5/C12"),
 "C13": ("faults", "fault_enumeration",
  "exhaustive fault enumeration around the real decoders and encoders (every truncation offset, every single-byte / u32 / chunk / tag mutation of a corpus, every read() script with <=1-2 deviations, every failing-sink offset, complete small input universes) in crash-tolerant sandboxed worker processes with allocation tracking",
  "Every case of each enumerated fault family is executed on the real code; outcomes other than Ok/Err (panic with site, oversized allocation with site, process abort, hang) are violations attributed to the exact case; truncation must be Err, read partitions must not change the result, a failing sink must be reported.",
  "Corpus of 23 small valid files; mutation alphabets as listed in the evidence rule; 'all byte strings' only up to length 3 (attributes) / 5-6 over a 14-symbol alphabet (XML); address space capped at 3 GiB per worker.",
  "5/C13"),
 "C14": ("codec", "model_checking",
  "bounded-exhaustive enumeration of attribute maps through the real encoder/decoder and through an independent codec written from docs/attributes.md (bound to the document's worked examples)",
  "Every map of the bounded space (<=3 entries, 4 names, every alphabet value of the 19 supported types) is encoded and decoded by rbx_types, decoded by the independent decoder, and re-encoded by the independent encoder for rbx_types to decode; 0/1-entry maps also travel through a binary and an XML file.",
  "Independent codec harness/src/c14.rs::specattr reproduces the 11 worked examples of the document before any verdict; the document's NumberRange example contradicts its prose (prose followed).",
  "5/C14"),
 "C15": ("dbwalk", "model_checking",
  "complete enumeration of the database's migrating (class, property) pairs x every database-legal legacy value x new property absent/present x four read/write paths x both encounter orders, compared with each other and with PropertyMigration::perform",
  "All 52 (class, legacy property) pairs reachable in the bundled database, all 53 Enum.Font items, all BrickColor numbers, both booleans and a URI alphabet go through write-binary, write-XML, read-binary and read-XML (legacy-named files produced through the public reflection-off options, chunk/element order swapped for the second encounter order).",
  "Legacy-named input files come from the subject's own writers with reflection switched off, not from an independent encoder.",
  "5/C15"),
 "C16": ("dbwalk", "model_checking",
  "complete walk of the finite reflection database (every class, descriptor, enum, default) plus one default-populated instance per class and every reachable (class, property-name) lookup through both real codecs",
  "The database is a finite artefact and is enumerated completely: 797 classes, 3242 descriptors, 458 enums, 7231 defaults, 22586 reachable (class, property) pairs; coherence rules are evaluated on each, and both codecs' lookups are exercised under catch_unwind.",
  "Counts are measured from the linked database, nothing is hard-coded; a regenerated database is checked by the same walk.",
  "5/C16"),
 "C17": ("serdex", "model_checking",
  "bounded-exhaustive enumeration of Variant values through every serde_json entry point, bincode and MessagePack, exhaustive sweeps of the finite domains (all u16 BrickColor numbers, all bit sets), text forms of Ref/UniqueId over boundary values, and every allValues.json sample",
  "Identity is checked bit-exactly for every case; the finite domains are swept completely; allValues.json is decoded through three entry points and re-encoded.",
  "'all 2^128 Refs' is covered over 0, MAX and every single-bit value only; JSON cannot carry non-finite floats.",
  "5/C17"),
 "C18": ("sched", "model_checking",
  "stateless DFS over thread interleavings (iterated preemption bounding; thorough: every interleaving of 2 threads) of the real SharedString code under a deterministic baton scheduler; scheduling points injected by cfg hooks at every intern-table lock acquisition, every reference-count operation on a buffer and every operation boundary",
  "Every schedule with <=3 preemptions (thorough: all) of 2 threads x programs of <=2 new/clone/drop operations over two colliding contents with 0-1 pre-existing shared handle, 3 threads x 1 operation with <=2 preemptions (thorough: all), thorough also 2 x 3 and 3 x 2 under bounds. At every consistent cut: live handles with equal contents share one buffer; per handle: bytes, ==, Hash; no panic; no deadlock (a thread that finds the lock taken parks as blocked, all-blocked is reported); intern table empty once everything is dropped.",
  "Granularity = lock acquisitions + Arc/Weak reference-count operations (upgrade, downgrade, into_inner, strong_count, clone) inside and outside the critical sections + operation boundaries; memory-ordering effects inside std Arc/Mutex are trusted (sequentially consistent interleavings only).",
  "5/C18"),
}

NOT_YET = {
}

def main():
    props = [json.loads(l) for l in open(os.path.join(ROOT, "properties.jsonl"))]
    ids = [p["id"] for p in props]
    try:
        hook_commits = subprocess.check_output(
            ["git", "-C", "/repo", "log", "--format=%H %s"], text=True).splitlines()
        hook_commits = [l.split()[0] for l in hook_commits if "verif hooks" in l]
    except Exception:
        hook_commits = []
    checks = []
    for pid in ids:
        if pid not in CHECKS:
            continue
        engine, cat, tech, text, note, ref = CHECKS[pid]
        checks.append({
            "property_id": pid,
            "quick_cmd": f"./check {pid} quick",
            "thorough_cmd": f"./check {pid} thorough",
            "evidence_file": f"/verif/evidence/{pid}.json",
            "replay_cmd_template": f"./check {pid} --replay {{path}}",
            "engine": engine,
            "level_claimed": {"category": cat, "text": text, "design_ref": f"DESIGN.md section {ref}"},
            "level_note": note,
            "technique": tech,
        })
    na = [{"property_id": pid, "reason": NOT_YET.get(pid, "check not built yet in this revision of /verif (planned: see DESIGN.md section 5)")}
          for pid in ids if pid not in CHECKS]
    manifest = {
        "version": 1,
        "setup_cmd": "cd /verif/harness && CARGO_NET_OFFLINE=true cargo build --release --offline",
        "hooks": {
            "guard": "rbx_dom_verif",
            "enable": "RUSTFLAGS --cfg rbx_dom_verif via /verif/harness/.cargo/config.toml (build.rustflags); the harness depends on /repo crates by path",
            "baseline_off_cmd": BASELINE_OFF,
            "source_commits": hook_commits,
            "add_only": True,
        },
        "engines": [
            {"name": "domx", "path": "harness/src/domx.rs", "serves_properties": ["C09", "C10", "C11", "C12"],
             "kind_free_text": "explicit-state BFS whose transition function calls the real WeakDom methods; reference model in lock-step (harness/src/dommodel.rs)"},
            {"name": "faults", "path": "harness/src/c13.rs", "serves_properties": ["C13"], "kind_free_text": "fault enumeration (truncation, corruption, read scripts, failing sinks, small universes) in forked workers under RLIMIT_AS with a tracking allocator (harness/src/crashpool.rs, alloctrack.rs)"},
            {"name": "dbwalk", "path": "harness/src/c16.rs", "serves_properties": ["C06", "C15", "C16"], "kind_free_text": "complete enumeration of the reflection database through the public rbx_reflection types and both codecs"},
            {"name": "serdex", "path": "harness/src/c17.rs", "serves_properties": ["C17"], "kind_free_text": "bounded-exhaustive value enumeration through serde entry points"},
            {"name": "codec", "path": "harness/src/sweeps.rs", "serves_properties": ["C01", "C02", "C03", "C04", "C05", "C07", "C08", "C14"],
             "kind_free_text": "bounded-exhaustive case enumeration (harness/src/codec.rs) through the real codecs in forked workers; expectations from plans + specdb"},
            {"name": "sched", "path": "harness/src/sched.rs", "serves_properties": ["C18", "C12"],
             "kind_free_text": "deterministic baton scheduler over real OS threads; stateless DFS over choice vectors with iterated preemption bound; yield points injected by cfg(rbx_dom_verif) shims in rbx_types"},
        ],
        "checks": checks,
        "not_applicable": na,
        "notes": "All checks are dispatched by ./check <ID> quick|thorough, which rebuilds the harness against /repo's working tree with --cfg rbx_dom_verif. Exit 0 held / 1 VIOLATION / 2 machinery failure. Known findings: /verif/known_findings.jsonl.",
    }
    with open(os.path.join(ROOT, "MANIFEST.json"), "w") as f:
        json.dump(manifest, f, indent=1)
        f.write("\n")
    print("wrote MANIFEST.json:", len(checks), "checks,", len(na), "not_applicable")

if __name__ == "__main__":
    main()
