#!/usr/bin/env python3
"""prints the prompt for a seeding sub-agent: tools/seed_prompt.py <dir> <hint-file or text>"""
import sys
d=sys.argv[1]; hint=sys.argv[2]
print(f"""You are helping evaluate a verification tool by producing ONE realistic, subtle bug ("seeded change") in a Rust code base.

Work ONLY inside the directory {d} (a scratch git worktree of the rbx-dom repository: Rust crates rbx_dom_weak, rbx_types, rbx_binary, rbx_xml, rbx_reflection, ...). Do not read or touch /verif or /repo. Do NOT use `git stash` (the stash is shared with other worktrees); to test without your change, save the diff to a file, `git checkout -- <files>`, test, then `git apply` the diff again. The machine is offline: always run cargo with `--offline` (e.g. `cd {d} && CARGO_NET_OFFLINE=true cargo test --workspace --no-fail-fast --offline`). Build output goes to {d}/target, which is fine.

The property to break is described in {d}/OUT/PROPERTY.txt — read it first, then read the anchor files it names.

Your task:
1. Make a small source change to the library code (NOT to tests, snapshots, docs, Cargo files or anything under OUT/) that makes the property FALSE for some inputs, while the code still compiles and the repository's existing test suite gives exactly the same results as before. NOTE: on the unmodified tree, `cargo test --workspace --no-fail-fast --offline` already has ~90 failing tests (rbx_binary tests::models::*, tests::places::*, rbx_xml tests::models::*, tests::edge_cases::* — they need a test-files submodule that is absent) and 177+ passing ones. "Same results" means: every test that passed before your change still passes (run the suite before and after and compare the sets of passing test names); snapshot tests must keep passing.
2. The change must be REALISTIC (something a developer could plausibly write during a refactor or optimisation) and must need something SPECIFIC to manifest — not something ordinary use exposes immediately, and not a blatant "always wrong". {hint} Do not add comments that give the bug away. Do not use cfg flags or environment variables to hide the bug.
3. Write a DEMONSTRATION: a self-contained Rust integration test file (using only the crates' public API) that FAILS with your change and PASSES on the unmodified code. Put it at {d}/OUT/demo.rs and say in OUT/README.md which crate's `tests/` directory it must be copied to and the exact cargo command to run it (e.g. copy to rbx_binary/tests/seed_demo.rs; `cargo test -p rbx_binary --offline --test seed_demo`; the line must mention the path like `rbx_binary/tests/seed_demo.rs`). Verify both directions yourself.
4. Save the change as a patch: `cd {d} && git diff -- . ':(exclude)OUT' > OUT/patch.diff` (the demo file must NOT be part of the patch; remove any copy of it from the crate's tests/ directory before producing the diff).
5. Write {d}/OUT/README.md: which sentence of the property the change breaks, what exactly is needed for it to manifest, and the commands you ran with their outcomes (tests before/after, demo with/without).

OUT/patch.diff, OUT/demo.rs, OUT/README.md must exist at the end. Report back a short summary (what you changed, what triggers it). If, while reading the code, you notice something in the UNMODIFIED code that already looks like a genuine bug related to this property, mention it at the end of your report (do not fix it). Quality matters more than speed, but keep the change small (a few lines).""")
