#!/usr/bin/env python3
"""Runs the repository's test suite with the verification guard OFF and checks
that every test in BASELINE.json's stable_pass list still passes."""
import json, re, subprocess, sys
base = json.load(open('/root/.vp/BASELINE.json'))
want = set(base['stable_pass'])
p = subprocess.run('cd /repo && cargo test --workspace --no-fail-fast --offline 2>&1', shell=True, capture_output=True, text=True)
crate = None
passed = set()
for line in p.stdout.splitlines():
    m = re.search(r'Running unittests .*\(target/debug/deps/([a-z_]+)-[0-9a-f]+\)', line)
    if m:
        crate = m.group(1); continue
    m = re.search(r'Running tests/.*\(target/debug/deps/([a-z_]+)-', line)
    if m:
        crate = m.group(1); continue
    m = re.match(r'test (\S+)(?: - should panic)? \.\.\. ok', line)
    if m and crate:
        passed.add(f'{crate}::{m.group(1)}')
missing = sorted(want - passed)
print(f'stable baseline tests: {len(want)}; passing now: {len(want & passed)}')
for m in missing[:20]:
    print('  NOT PASSING:', m)
sys.exit(1 if missing else 0)
