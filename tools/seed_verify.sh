#!/bin/bash
# usage: tools/seed_verify.sh <worktree> <name> <PROP> [more PROPs...]
# Confirms a seeded change (demo fails with it / passes without; repo suite unchanged),
# stores it under /verif/seeded/<name>/ and runs the quick checks of the given
# properties against it in /repo (applied, then reverted).
set -u
WT="$1"; NAME="$2"; shift 2; PROPS="$@"
OUT="$WT/OUT"; DEST="/verif/seeded/$NAME"
export CARGO_NET_OFFLINE=true
[ -s "$OUT/patch.diff" ] || { echo "no patch"; exit 2; }
cd "$WT" || exit 2
# where does the demo go?
CRATE=$(grep -oE "(rbx_[a-z_]+)/tests/[a-z0-9_]+\.rs" "$OUT/README.md" | head -1 | cut -d/ -f1)
[ -n "$CRATE" ] || CRATE=$(grep -oE "rbx_[a-z_]+/tests" "$OUT/README.md" | head -1 | cut -d/ -f1)
echo "demo crate: $CRATE"
git checkout -q -- . 2>/dev/null
mkdir -p "$CRATE/tests"; cp "$OUT/demo.rs" "$CRATE/tests/seed_demo.rs"
FEAT=""; [ "$CRATE" = "rbx_types" ] && FEAT="--features serde"
cargo test -p "$CRATE" --offline $FEAT --test seed_demo >"$OUT/verify_without.log" 2>&1; W0=$?
git apply "$OUT/patch.diff" || { echo "patch does not apply in worktree"; exit 2; }
W1=0
for i in 1 2 3; do cargo test -p "$CRATE" --offline $FEAT --test seed_demo >"$OUT/verify_with.log" 2>&1 || W1=1; done
rm -f "$CRATE/tests/seed_demo.rs"; rmdir "$CRATE/tests" 2>/dev/null
git checkout -q -- . 
echo "demo without change: exit $W0 (want 0); with change: failed at least once: $W1 (want 1)"
# against /repo: baseline suite + our checks
cd /repo && git status --short | grep -v "benches/files" | grep . && { echo "/repo not clean"; exit 2; }
git -C /repo apply "$OUT/patch.diff" || { echo "patch does not apply to /repo"; exit 2; }
python3 /verif/tools/baseline_check.py > "$OUT/baseline.log" 2>&1; B=$?
echo "repo suite with change: exit $B (want 0)"; tail -3 "$OUT/baseline.log"
RES=""
for P in $PROPS; do
  VERIF_WALL_CAP=900 /verif/check $P quick > "$OUT/check_$P.log" 2>&1; E=$?
  RES="$RES $P=$E"
  echo "check $P quick -> exit $E"; grep -E "^VIOLATION|key:" "$OUT/check_$P.log" | head -4
done
git -C /repo checkout -- . 
mkdir -p "$DEST"; cp "$OUT/patch.diff" "$OUT/demo.rs" "$DEST/"; cp "$OUT/README.md" "$DEST/agent_README.md"
cat > "$DEST/meta.json" <<EOM
{"name": "$NAME", "breaks": "$(echo $PROPS | cut -d' ' -f1)", "demo_crate": "$CRATE",
 "demo_without_change_exit": $W0, "demo_with_change_failed": $W1, "repo_suite_with_change_exit": $B,
 "quick_checks": "$RES", "ran": "tools/seed_verify.sh $WT $NAME $PROPS", "needs": "see agent_README.md"}
EOM
echo "stored in $DEST"
