#!/bin/bash
# usage: tools/seed_try.sh <seed-name> <PROP> [quick|thorough]  -- apply a stored seed to /repo, run one check, revert
N="$1"; P="$2"; T="${3:-quick}"
git -C /repo apply "/verif/seeded/$N/patch.diff" || exit 2
VERIF_WALL_CAP=${VERIF_WALL_CAP:-900} /verif/check "$P" "$T" 2>&1 | grep -E "VIOLATION|key:|HELD|KNOWN|error|MACHINERY" | head -8 | cut -c1-260
git -C /repo checkout -- .
git -C /repo status --short | grep -v benches/files
