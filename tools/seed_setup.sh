#!/bin/bash
# usage: tools/seed_setup.sh <PROP> [suffix]  -> creates /tmp/seed_<PROP><suffix> worktree with OUT/PROPERTY.txt
set -eu
P="$1"; S="${2:-}"; WT="/tmp/seed_${P}${S}"
git -C /repo worktree add --detach "$WT" HEAD >/dev/null 2>&1
mkdir -p "$WT/OUT"
python3 - "$P" "$WT/OUT/PROPERTY.txt" <<'PY'
import json,sys
for l in open('/verif/properties.jsonl'):
    d=json.loads(l)
    if d['id']==sys.argv[1]:
        open(sys.argv[2],'w').write(json.dumps(d,indent=1)+"\n")
PY
echo "$WT"
